#!/usr/bin/env python3
"""Parsing of Tie-B streams and the per-property oracles (the property's observable statement
evaluated directly on an observation stream — the implementation's or the model's)."""
import collections

PR = 10**6
E18 = 10**18

# ---------------------------------------------------------------- parsing

class Msg:
    __slots__ = ('kind', 'args', 'sub')
    def __init__(self, kind, args=None, sub=None):
        self.kind, self.args, self.sub = kind, args or [], sub or []
    def flat(self):
        """leaf messages in execution order (exec unwrapped)"""
        if self.kind == 'EXEC':
            out = []
            for s in self.sub: out += s.flat()
            return out
        return [self]
    def __repr__(self):
        if self.sub: return f"{self.kind}[{','.join(map(repr, self.sub))}]"
        return f"{self.kind}({' '.join(self.args)})"

def _read_msg(lines, i):
    f = lines[i].split(); i += 1
    assert f[0] == 'M', f
    kind = f[1]
    if kind in ('EXEC', 'GROUPPROP', 'GOVPROP', 'GOVSUB'):
        n = int(f[2]); sub = []
        for _ in range(n):
            m, i = _read_msg(lines, i); sub.append(m)
        return Msg(kind, [], sub), i
    return Msg(kind, f[2:]), i

def parse_ops(path):
    """-> list of histories: dict(genesis=[...], gvals=[(op,key,tokens)], blocks=[dict(dt,votes,txs,restart)], raw=[lines])"""
    hs = []; cur = None
    lines = [l.rstrip('\n') for l in open(path) if l.strip() and not l.startswith('#')]
    i = 0; restart = False; pending_admin = None
    while i < len(lines):
        f = lines[i].split()
        if f[0] == 'GENESIS':
            start = i
            cur = dict(genesis=[int(x) for x in f[1:]], gvals=[], blocks=[], start=start)
            n = int(f[8]); i += 1
            for _ in range(n):
                g = lines[i].split(); cur['gvals'].append((int(g[1]), int(g[2]), int(g[3]))); i += 1
        elif f[0] == 'ADMIN':
            if not cur['blocks']:
                cur['govadmin'] = len(f) > 1 and f[1] == 'gov'
            else:
                pending_admin = f[1]
            i += 1
        elif f[0] == 'RESTART':
            restart = True; i += 1
        elif f[0] == 'BLOCK':
            b = dict(dt=int(f[1]), votes=[], txs=[], evid=[], restart=restart, admin=pending_admin); restart = False; pending_admin = None
            nv, nt = int(f[2]), int(f[3]); ne = int(f[4]) if len(f) > 4 else 0; ng = int(f[5]) if len(f) > 5 else 0; i += 1
            for _ in range(nv):
                v = lines[i].split(); b['votes'].append((int(v[1]), int(v[2]), v[3] == '1')); i += 1
            for _ in range(ne):
                e = lines[i].split(); assert e[0] == 'EVID', lines[i]
                b['evid'].append((int(e[1]), int(e[2]), int(e[3]))); i += 1
            for _ in range(nt):
                t = lines[i].split(); i += 1
                tx = dict(signer=int(t[1]), msgs=[])
                for _ in range(int(t[2])):
                    m, i = _read_msg(lines, i); tx['msgs'].append(m)
                b['txs'].append(tx)
            # proposals x/gov's EndBlocker executed in this block: their messages are sent by the gov account — the admin
            # of such a chain — so they are listed as transactions of the admin, after the block's own (their results follow
            # the transactions' in the TXR lines)
            for _ in range(ng):
                g = lines[i].split(); assert g[0] == 'GOV', lines[i]; i += 1
                tx = dict(signer=-1, msgs=[], gov=True)
                for _ in range(int(g[1])):
                    m, i = _read_msg(lines, i); tx['msgs'].append(m)
                b['txs'].append(tx)
            assert lines[i] == 'ENDBLOCK', lines[i]; i += 1
            cur['blocks'].append(b)
        elif f[0] == 'END':
            cur['raw'] = lines[cur['start']:i+1]
            # while the admin is the x/gov account (`ADMIN gov`, at genesis or from a restart on): what the gov-executed
            # proposals (listed as the admin's transactions) do is the admin's doing; the account of the environment override
            # (signer -1) is an ordinary account then
            gov_now = bool(cur.get('govadmin'))
            for b in cur['blocks']:
                if b.get('admin'):
                    gov_now = b['admin'] == 'gov'
                if gov_now:
                    for tx in b['txs']:
                        if tx['signer'] == -1 and not tx.get('gov'):
                            tx['signer'] = -2
            hs.append(cur); cur = None; i += 1
        else:
            raise ValueError(lines[i])
    return hs

def _pairs(fs):
    return [(int(a), int(b)) for a, b in (x.split(':') for x in fs)]

def parse_obs(path):
    """-> list of histories; each a list of block observations (dict)"""
    hs = []; cur = []; blk = None
    for l in open(path):
        l = l.rstrip('\n')
        if not l: continue
        f = l.split()
        t = f[0]
        if t == 'END':
            if blk is not None: cur.append(blk)
            hs.append(cur); cur = []; blk = None
        elif t == 'H':
            if blk is not None: cur.append(blk)
            blk = dict(h=int(f[1]), txr=[], upd=None, comet=None, halt=None, vals={}, trig={}, sig={}, lines=[])
        elif blk is None:
            continue
        else:
            blk['lines'].append(l)
            if t == 'TXR': blk['txr'].append(f[2])
            elif t == 'TRIG': blk['trig'].setdefault(int(f[1]), []).extend(f[2:])
            elif t == 'UPD': blk['upd'] = _pairs(f[1:])
            elif t == 'COMET': blk['comet'] = dict(_pairs(f[1:]))
            elif t == 'HALT': blk['halt'] = f[1]
            elif t == 'VAL':
                blk['vals'][int(f[1])] = dict(op=int(f[1]), key=int(f[2]), status=int(f[3]), jailed=f[4] == '1', tokens=int(f[5]),
                                              shares=int(f[6]), self=None if f[7] == '-' else int(f[7]), last=None if f[8] == '-' else int(f[8]),
                                              ubt=int(f[9]), ubh=int(f[10]))
            elif t == 'TOT': blk['tot'] = (int(f[1]), int(f[2]), int(f[3]))
            elif t == 'IDX': blk['idx'] = _pairs(f[1:])
            elif t == 'UBQ': blk['ubq'] = f[1:]
            elif t == 'PEND': blk['pend'] = [x.split(':') for x in f[1:]]
            elif t == 'PQRY': blk['pqry'] = [x.split(':') for x in f[1:]]
            elif t == 'UPDC': blk['updc'] = [int(x) for x in f[1:]]
            elif t == 'POOL': blk['pool'] = (int(f[1]), int(f[2]), int(f[3]))
            elif t == 'PAR': blk['par'] = f[1:]
            elif t == 'SIG': blk['sig'][int(f[1])] = [int(x) for x in f[2:]]
            elif t == 'AUTH': blk['auth'] = f[1]
            elif t == 'QRY': blk['qry'] = dict((int(a), b) for a, b in (x.split(':') for x in f[1:]))
            elif t == 'RESP': blk['resp'] = f[1]
            elif t == 'PRE': blk['pre'] = f[1] == '1'
            elif t == 'STEP': blk['step'] = f[1] == '1'
            elif t == 'QUIET': blk['quiet'] = f[1] == '1'
            elif t == 'QUIET2': blk['quiet2'] = f[1] == '1'
            elif t == 'QUIET3': blk['quiet3'] = f[1] == '1'
            elif t == 'WF': blk['wf'] = f[1] == '1'
            elif t == 'QMAL': blk['qmal'] = (int(f[1]), f[2] if len(f) > 2 else '-')
            elif t == 'PROBE': blk['probe'] = [tuple(x.split('=')) for x in f[1:]]
            elif t == 'VCOM': blk['vcom'] = dict((int(x.split(':')[0]), x.split(':')[1:]) for x in f[1:])
    return hs

# ---------------------------------------------------------------- helpers over a history

def tx_ok(blk, i):
    return i < len(blk['txr']) and blk['txr'][i] == 'ok'

def successful_leaves(opsblk, obsblk):
    """[(tx index, signer, Msg)] of PoA-relevant leaf messages of successful txs, in execution order"""
    out = []
    for i, tx in enumerate(opsblk['txs']):
        if tx_ok(obsblk, i):
            for m in tx['msgs']:
                for lf in m.flat():
                    out.append((i, tx['signer'], lf))
    return out

def params_valid(a):
    unbond, maxv, maxe, hist, denom, minc = int(a[0]), int(a[1]), int(a[2]), int(a[3]), int(a[4]), int(a[5])
    return unbond > 0 and maxv > 0 and maxe > 0 and hist >= 0 and denom < 2 and 0 <= minc <= E18

Viol = collections.namedtuple('Viol', 'hist height kind detail')

def _prev(obs, j):
    return obs[j-1] if j > 0 else None

def cap_binding(blk):
    """more unjailed validators with power than MaxValidators: the cut-off is in play"""
    if 'par' not in blk: return False
    maxv = int(blk['par'][1])
    n = sum(1 for v in blk['vals'].values() if not v['jailed'] and v['tokens'] >= PR)
    return n > maxv

# ---------------------------------------------------------------- oracles
# every oracle: (hist_index, ops_history, obs_history) -> [Viol]

def oracle_C02(hi, ops, obs):
    out = []
    for j, b in enumerate(obs):
        if b['halt'] or b['comet'] is None or not b['vals']:
            continue
        exp = {}
        for v in b['vals'].values():
            if v['status'] == 3 and not v['jailed']:
                q = b['qry'].get(v['op'])
                exp[v['key']] = None if q in (None, 'err') else int(q)
        if exp != b['comet']:
            # later blocks inherit a divergence; they are still listed, so that a *different* divergence later in the
            # same history is not hidden behind a known one (the check compares the details with the model's)
            out.append(Viol(hi, b['h'], 'set-mismatch', f"comet={sorted(b['comet'].items())} chain={sorted(exp.items())}"))
    return out

def oracle_C04(hi, ops, obs):
    for b in obs:
        if b['halt']:
            return [Viol(hi, b['h'], 'halt', b['halt'])]
    return []

def _jailed_now(prev, cur):
    """keys of validators whose jailed flag went 0 -> 1, or tokens changed with jail (slash), between two observations"""
    ks = set()
    for op, v in cur['vals'].items():
        pv = prev['vals'].get(op) if prev else None
        if v['jailed'] and (pv is None or not pv['jailed']):
            ks.add(v['key'])
    return ks

def oracle_C03(hi, ops, obs):
    out = []
    removed = set()      # keys removed by a successful RemoveValidator and not re-admitted
    for j, b in enumerate(obs):
        if j == 0 or b['halt'] or b['comet'] is None or not b['vals']:
            continue
        prev = obs[j-1]
        ob = ops['blocks'][j-1]
        leaves = successful_leaves(ob, b)
        targets = set(); final = {}   # op -> ('set', P) | ('remove',)
        unjailed = set(); capchange = False
        for (_, sg, m) in leaves:
            if m.kind == 'SETPOWER' and int(m.args[0]) >= 0:
                op = int(m.args[0]); targets.add(op); final[op] = ('set', int(m.args[1]))
            elif m.kind == 'REMOVE' and int(m.args[0]) >= 0:
                op = int(m.args[0]); targets.add(op); final[op] = ('remove',)
            elif m.kind == 'UNJAIL':
                unjailed.add(int(m.args[0]))
            elif m.kind == 'PARAMS':
                capchange = True
        opkey = {op: v['key'] for op, v in b['vals'].items()}
        if prev['vals']:
            opkey.update({op: v['key'] for op, v in prev['vals'].items() if op not in opkey})
        jailed_keys = _jailed_now(prev if prev['vals'] else None, b)
        lenient = capchange or cap_binding(b) or (prev['vals'] and cap_binding(prev))
        # (a)/(b) requested effect
        for op, act in final.items():
            k = opkey.get(op)
            if k is None: continue
            v = b['vals'].get(op)
            if act[0] == 'set':
                removed.discard(k)
                if v is not None and v['jailed']:   # jailed validators stay out whatever the admin does (C13)
                    continue
                if lenient: continue
                want = act[1] // PR
                if b['comet'].get(k) != want:
                    out.append(Viol(hi, b['h'], 'setpower-effect', f"op {op} requested {want} comet has {b['comet'].get(k)}"))
            else:
                removed.add(k)
        for k in removed:
            if k in b['comet']:
                out.append(Viol(hi, b['h'], 'removed-returns', f"key {k} is back in the set"))
        # (c) updates mention only allowed validators
        if not lenient:
            allowed = {opkey.get(op) for op in targets | unjailed} | jailed_keys
            for (k, p) in b['upd']:
                if k not in allowed:
                    out.append(Viol(hi, b['h'], 'bystander-update', f"key {k} -> {p} not a target/jailed/unjailed"))
            # (d) frame: other validators keep status, tokens, shares, self-delegation, last power
            if prev['vals']:
                for op, pv in prev['vals'].items():
                    if op in targets or op in unjailed or pv['key'] in jailed_keys: continue
                    if pv['status'] != 3 or pv['jailed']: continue
                    v = b['vals'].get(op)
                    if v is None or any(v[f] != pv[f] for f in ('status', 'jailed', 'tokens', 'shares', 'self', 'last')):
                        out.append(Viol(hi, b['h'], 'bystander-state', f"op {op} changed without being a target"))
        if out: break
    return out

def oracle_C05(hi, ops, obs):
    """decision of every safe SetPower recomputed from the tracked CometBFT total of the previous block"""
    out = []
    for j, b in enumerate(obs):
        if j == 0 or b['halt'] is not None and not b['txr']:
            continue
        prev = obs[j-1]
        if b['h'] <= 1 or prev.get('comet') is None: continue
        ob = ops['blocks'][j-1]
        ref_total = sum(prev['comet'].values())
        power = {}
        for op, v in (prev['vals'] or {}).items():
            power[op] = v['last'] or 0
        # validators jailed at the start of this block keep their last power until EndBlock
        pending = {int(p[0]) for p in prev.get('pend', [])}
        running = 0
        exact = True
        for i, tx in enumerate(ob['txs']):
            if i >= len(b['txr']): break
            res = b['txr'][i]
            leaves = [lf for m in tx['msgs'] for lf in m.flat()]
            kinds = {lf.kind for lf in leaves}
            if not kinds & {'SETPOWER', 'REMOVE'}:
                if res == 'ok':
                    for lf in leaves:
                        if lf.kind == 'RMPENDING' and int(lf.args[0]) >= 0: pending.discard(int(lf.args[0]))
                        if lf.kind == 'CREATE': pending.add(int(lf.args[0]))
                continue
            # simulate the tx on a copy; decide what the reference says for the single safe SetPower case
            simple = len(tx['msgs']) == 1 and tx['msgs'][0].kind == 'SETPOWER'
            if simple and tx['signer'] == -1 and exact:
                m = tx['msgs'][0]; op = int(m.args[0]); P = int(m.args[1]); unsafe = m.args[2] == '1'
                known = op >= 0 and (op in power or op in pending)
                if known and PR <= P < 2**63 and not unsafe:
                    cur = power.get(op, 0)
                    newp = P // PR
                    if newp != cur:
                        d = abs(newp - cur)
                        should_pass = ref_total > 0 and (running + d) * 100 < 30 * ref_total
                        if res == 'ok' and not should_pass:
                            out.append(Viol(hi, b['h'], 'limit-not-enforced', f"tx {i}: sum {running + d} of total {ref_total} accepted"))
                        if res == 'poa:4' and should_pass:
                            out.append(Viol(hi, b['h'], 'limit-too-strict', f"tx {i}: sum {running + d} of total {ref_total} rejected"))
            if res == 'ok':
                for lf in leaves:
                    if lf.kind == 'SETPOWER' and int(lf.args[0]) >= 0:
                        op = int(lf.args[0]); newp = int(lf.args[1]) // PR
                        running += abs(newp - power.get(op, 0)); power[op] = newp; pending.discard(op)
                    elif lf.kind == 'REMOVE' and int(lf.args[0]) >= 0:
                        op = int(lf.args[0]); running += abs(power.get(op, 0)); power[op] = 0
                    elif lf.kind == 'RMPENDING' and int(lf.args[0]) >= 0: pending.discard(int(lf.args[0]))
                    elif lf.kind == 'CREATE': pending.add(int(lf.args[0]))
        # the running sum the block leaves behind counts every successful change — increase, decrease, admission, removal —
        # with the voting power the validator had when the message ran
        if b['halt'] is None and 'tot' in b and len(b['txr']) >= len(ob['txs']) and b['tot'][2] != running:
            out.append(Viol(hi, b['h'], 'sum-not-exact', f"the block's successful changes add up to {running}, the stored sum is {b['tot'][2]}"))
        if out: break
    return out

def oracle_C10(hi, ops, obs):
    out = []
    queue = []   # reference queue: [op, key, info]
    for j, b in enumerate(obs):
        if j == 0 or b['halt'] or 'pend' not in b:
            continue
        ob = ops['blocks'][j-1]
        prev = obs[j-1]
        only_queue_ops = True; any_success = False
        admitted = {}
        for (_, sg, m) in successful_leaves(ob, b):
            any_success = True
            if m.kind == 'CREATE':
                a = m.args
                queue.append([a[0], a[1], ','.join(a[2:10])])
            elif m.kind == 'SETPOWER':
                only_queue_ops = False
                for q in queue:
                    if q[0] == m.args[0]:
                        admitted[int(q[0])] = q[2]   # the application as it stood when the admin admitted it
                        queue.remove(q); break
            elif m.kind == 'RMPENDING':
                for q in queue:
                    if q[0] == m.args[0]: queue.remove(q); break
            elif m.kind in ('REMOVE', 'PARAMS', 'UNJAIL'):
                only_queue_ops = False
        got = [[p[0], p[1], p[4]] for p in b['pend']]
        if got != queue:
            out.append(Viol(hi, b['h'], 'queue-mismatch', f"query={got} reference={queue}")); break
        for p in b['pend']:
            if p[2] != '0' or p[3] != '1':
                out.append(Viol(hi, b['h'], 'pending-fixed-fields', f"{p}"))
        # admission moves exactly that application into the validator set: a validator that was a pending application after
        # the previous block carries the commission rates and the minimum self-delegation of that application
        if 'vcom' in b:
            # (the application admitted is the one in the queue at that moment: an applicant whose application was removed
            # may have applied again, with other rates, earlier in the same block)
            # (its operator may edit the fresh validator in the very block of the admission: MsgEditValidator is not disabled)
            edited = set(sg for (_, sg, m) in successful_leaves(ob, b) if m.kind == 'EDIT')
            for op, vc in b['vcom'].items():
                if op in admitted and op not in (prev.get('vals') or {}) and op not in edited:
                    sub = admitted[op].split(',')[5:8]
                    if vc[:3] != sub or vc[3] != '1':
                        out.append(Viol(hi, b['h'], 'admitted-differs-from-application', f"op {op}: application rates {sub} min-self 1, validator {vc}"))
        ops_seen = [p[0] for p in b['pend']] + [str(o) for o in b['vals']]
        keys_seen = [p[1] for p in b['pend']] + [str(v['key']) for v in b['vals'].values()]
        if len(set(ops_seen)) != len(ops_seen) or len(set(keys_seen)) != len(keys_seen):
            out.append(Viol(hi, b['h'], 'duplicate-identity', f"ops={ops_seen} keys={keys_seen}"))
        # creating / deleting / keeping applications changes no set, power or supply
        votes_absent = any(a for (_, _, a) in ob['votes'])
        if only_queue_ops and prev.get('pool') and not votes_absent and not ob.get('evid') and prev['vals'] and not b['upd']:
            if b['pool'][2] != prev['pool'][2]:
                out.append(Viol(hi, b['h'], 'supply-moved-by-queue-op', f"{prev['pool'][2]} -> {b['pool'][2]}"))
        if out: break
    return out

def oracle_C11(hi, ops, obs):
    out = []
    for j, b in enumerate(obs):
        if j == 0 or b['halt'] or 'pool' not in b:
            continue
        bonded = sum(v['tokens'] for v in b['vals'].values() if v['status'] == 3)
        notb = sum(v['tokens'] for v in b['vals'].values() if v['status'] != 3)
        if b['pool'][0] != bonded or b['pool'][1] != notb:
            out.append(Viol(hi, b['h'], 'pool-mismatch', f"pools={b['pool'][:2]} tokens(bonded)={bonded} tokens(other)={notb}"))
            continue
        prev = obs[j-1]
        if prev.get('pool') and prev['vals']:
            # supply delta = sum over validators of token change (PoA assignments, slashing burns); nothing else
            tok_prev = sum(v['tokens'] for v in prev['vals'].values())
            tok_now = sum(v['tokens'] for v in b['vals'].values())
            if b['pool'][2] - prev['pool'][2] != tok_now - tok_prev:
                out.append(Viol(hi, b['h'], 'supply-delta', f"supply {prev['pool'][2]}->{b['pool'][2]} tokens {tok_prev}->{tok_now}"))
    return out

def oracle_C13(hi, ops, obs):
    out = []
    for j, b in enumerate(obs):
        if j > 0 and b['halt'] and j - 1 < len(ops['blocks']):
            # the block carrying an unjail fails (a failed block reports no transaction results): the validator does not return
            ob = ops['blocks'][j-1]
            for i, tx in enumerate(ob['txs']):
                if (i >= len(b['txr']) or b['txr'][i] == 'ok') and any(lf.kind == 'UNJAIL' for m in tx['msgs'] for lf in m.flat()):
                    out.append(Viol(hi, b['h'], 'unjail-block-fails', f"tx {i} unjail, block ends with {b['halt']}"))
        if j == 0 or b['halt'] or b['comet'] is None or not b['vals']:
            continue
        prev = obs[j-1]
        ob = ops['blocks'][j-1]
        for v in b['vals'].values():
            if v['jailed'] and v['key'] in b['comet']:
                out.append(Viol(hi, b['h'], 'jailed-in-set', f"op {v['op']} jailed but key {v['key']} has power {b['comet'][v['key']]}"))
        leaves = successful_leaves(ob, b)
        # downtime: x/slashing jails a validator only when it missed more blocks of the current window than the rule
        # tolerates — whatever the admin did to it meanwhile.  (Necessary condition, counted from the votes of the last
        # `window` blocks; a jailing in a block that carries evidence against the key is the double-sign path.)
        if prev['vals'] and len(ops['genesis']) > 3:
            W, min_signed = ops['genesis'][2], ops['genesis'][3]
            need = W - min_signed + 1
            evid_keys = {e[0] for e in ob['evid']}
            for k in _jailed_now(prev, b):
                if k in evid_keys: continue
                # the window slides over the validator's own last `window` vote records (it stands still while the validator is
                # outside the set)
                missed = 0; seen = 0
                for jj in range(j, 0, -1):
                    for (vk, _, absent) in ops['blocks'][jj-1]['votes']:
                        if vk == k:
                            seen += 1
                            if absent: missed += 1
                    if seen >= W: break
                if missed < need:
                    out.append(Viol(hi, b['h'], 'jailed-without-enough-misses', f"key {k} jailed after missing {missed} of the last {W} blocks; the rule tolerates {need - 1}"))
        # "stays out until it is unjailed": the jailed flag of a record is cleared by a successful MsgUnjail of its operator only
        if prev['vals']:
            unjailed_by_msg = set(int(m.args[0]) for (_, _, m) in leaves if m.kind == 'UNJAIL')
            for v in b['vals'].values():
                pv = prev['vals'].get(v['op'])
                if pv is not None and pv['jailed'] and not v['jailed'] and v['op'] not in unjailed_by_msg:
                    out.append(Viol(hi, b['h'], 'unjailed-without-unjail', f"op {v['op']} was jailed, is not any more, and sent no successful MsgUnjail"))
        lenient = any(m.kind == 'PARAMS' for (_, _, m) in leaves) or cap_binding(b) or (prev['vals'] and cap_binding(prev))
        touched = set()
        for (_, sg, m) in leaves:
            if m.kind in ('SETPOWER', 'REMOVE') and int(m.args[0]) >= 0: touched.add(int(m.args[0]))
        for (_, sg, m) in leaves:
            if m.kind == 'UNJAIL':
                op = int(m.args[0]); v = b['vals'].get(op)
                if v and not lenient and op not in touched and not v['jailed']:
                    want = v['tokens'] // PR
                    got = b['comet'].get(v['key'], 0)
                    if want != got:
                        out.append(Viol(hi, b['h'], 'unjail-power', f"op {op} tokens {v['tokens']} comet power {got}"))
        # causes of power loss
        if prev.get('comet') is not None and prev['vals'] and not lenient:
            jailed_keys = _jailed_now(prev, b)
            opkey = {v['key']: op for op, v in prev['vals'].items()}
            for k, p in prev['comet'].items():
                if b['comet'].get(k, 0) < p:
                    op = opkey.get(k)
                    if k in jailed_keys or op in touched: continue
                    out.append(Viol(hi, b['h'], 'unexplained-power-loss', f"key {k}: {p} -> {b['comet'].get(k, 0)}"))
        if out: break
    return out

def oracle_C14(hi, ops, obs):
    out = []
    for j, b in enumerate(obs):
        if j == 0 or (b['halt'] and not b['txr']): continue
        ob = ops['blocks'][j-1]
        prev = obs[j-1]
        lastset = {}   # op -> voting power assigned by the latest successful SetPower of this block (nothing else touched it since)
        for i, tx in enumerate(ob['txs']):
            if i >= len(b['txr']): break
            res = b['txr'][i]
            if tx['signer'] == -1 and len(tx['msgs']) == 1 and tx['msgs'][0].kind == 'SETPOWER' and res == 'ok':
                m0 = tx['msgs'][0]; op0 = int(m0.args[0]); P0 = int(m0.args[1])
                if op0 in lastset and PR <= P0 < 2**63 and P0 // PR == lastset[op0]:
                    out.append(Viol(hi, b['h'], 'same-power-accepted', f"tx {i} op {op0} power {P0}: the voting power was set to {lastset[op0]} earlier in this block"))
            if res == 'ok':
                for m2 in tx['msgs']:
                    for lf in m2.flat():
                        if lf.kind == 'SETPOWER' and lf.args and lf.args[0].lstrip('-').isdigit() and int(lf.args[0]) >= 0:
                            lastset[int(lf.args[0])] = int(lf.args[1]) // PR
                        elif lf.kind in ('REMOVE', 'UNJAIL') and lf.args and lf.args[0].lstrip('-').isdigit():
                            lastset.pop(int(lf.args[0]), None)
            if tx['signer'] != -1 or len(tx['msgs']) != 1 or tx['msgs'][0].kind != 'SETPOWER': continue
            m = tx['msgs'][0]; op = int(m.args[0]); P = int(m.args[1])
            if res == 'sdk:32': continue
            if op >= 0 and P < PR and (res == 'ok' if tx.get('gov') else res != 'poa:2'):
                out.append(Viol(hi, b['h'], 'below-minimum-not-rejected', f"tx {i} power {P} -> {res}"))
            if op >= 0 and P >= 2**63 and res == 'ok':
                out.append(Viol(hi, b['h'], 'int64-overflow-accepted', f"tx {i} power {P}"))
            # a request that would not change the voting power is rejected (judged on the first message that touches
            # the validator in the block, where the power before it is the observed one)
            pv = prev['vals'].get(op) if prev['vals'] else None
            touched = any(int(lf.args[0]) == op for t2 in ob['txs'][:i] for m2 in t2['msgs'] for lf in m2.flat()
                          if lf.kind in ('SETPOWER', 'REMOVE', 'UNJAIL') and lf.args and lf.args[0].lstrip('-').isdigit())
            if res == 'ok' and pv is not None and pv['status'] == 3 and not pv['jailed'] and pv['last'] is not None and not touched \
                    and PR <= P < 2**63 and P // PR == pv['last']:
                out.append(Viol(hi, b['h'], 'same-power-accepted', f"tx {i} op {op} power {P} (voting power stays {pv['last']})"))
            # … and only such a request: an unsafe assignment of a different voting power, within the domain, to a bonded
            # un-jailed validator that nothing in this block has touched can fail for no other reason
            touched_ok = any(int(lf.args[0]) == op for k2, t2 in enumerate(ob['txs'][:i]) if k2 < len(b['txr']) and b['txr'][k2] == 'ok'
                             for m2 in t2['msgs'] for lf in m2.flat()
                             if lf.kind in ('SETPOWER', 'REMOVE', 'UNJAIL') and lf.args and lf.args[0].lstrip('-').isdigit())
            if res != 'ok' and not tx.get('gov') and pv is not None and pv['status'] == 3 and not pv['jailed'] and pv['last'] is not None \
                    and not touched_ok and PR <= P < 2**63 and P // PR != pv['last'] and m.args[2] == '1':
                out.append(Viol(hi, b['h'], 'different-power-rejected', f"tx {i} op {op} power {P} (voting power {pv['last']}) -> {res}"))
        if b['halt'] or not b['vals']: continue
        # exact conversion for the last successful assignment of each validator in the block
        final = {}
        for (_, sg, m) in successful_leaves(ob, b):
            if m.kind == 'SETPOWER' and int(m.args[0]) >= 0: final[int(m.args[0])] = int(m.args[1])
            elif m.kind == 'REMOVE' and int(m.args[0]) >= 0: final.pop(int(m.args[0]), None)
        for op, P in final.items():
            v = b['vals'].get(op)
            if v is None: continue
            pv = prev['vals'].get(op) if prev['vals'] else None
            if v['tokens'] != P or v['shares'] != P * E18 or v['self'] != P * E18:
                out.append(Viol(hi, b['h'], 'amount-not-exact', f"op {op} requested {P} tokens {v['tokens']} shares {v['shares']} self {v['self']}"))
    return out

def oracle_C15(hi, ops, obs):
    """full application: an accepted CreateValidator satisfies x/staking's commission rules, the chain minimum included"""
    out = []
    for j, b in enumerate(obs):
        if j == 0 or (b['halt'] and not b['txr']): continue
        ob = ops['blocks'][j-1]
        prev = obs[j-1]
        # the fixed fields of every queued application: no tokens, minimum self-delegation 1, whatever the message asked for
        for p in (b.get('pend') or []):
            if p[2] != '0' or p[3] != '1':
                out.append(Viol(hi, b['h'], 'pending-fixed-fields', f"{p}"))
        if out: break
        if 'par' not in prev: continue
        minc = int(prev['par'][5])
        for i, tx in enumerate(ob['txs']):
            if i >= len(b['txr']): break
            leaves = [lf for m in tx['msgs'] for lf in m.flat()]
            if any(lf.kind == 'PARAMS' for lf in leaves): break   # the minimum may have moved: judge no later message of this block
            # … and only those rules: a well-formed application (lengths within x/staking's limits, commission valid, at or
            # above the chain minimum and inside the app's limiter, an ed25519 key) of an operator and a key nobody uses —
            # judged on the first application of the block — is accepted: the handler has no other ground to refuse it
            if b['txr'][i] != 'ok' and b['h'] > 1 and len(tx['msgs']) == 1 and tx['msgs'][0].kind == 'CREATE' and prev['vals'] \
                    and (b['txr'][i].startswith('poa:') or b['txr'][i].startswith('staking:')) \
                    and not any(l2.kind == 'CREATE' for t2 in ob['txs'][:i] for m2 in t2['msgs'] for l2 in m2.flat()):
                a = tx['msgs'][0].args
                cop, ckey = int(a[0]), int(a[1])
                lens = [int(x) for x in a[2:7]]; rate, maxr, maxc = int(a[7]), int(a[8]), int(a[9])
                wellformed = tx['signer'] == cop and 0 <= ckey < 10 and 1 <= lens[0] <= 70 and lens[1] <= 3000 and lens[2] <= 140 and lens[3] <= 140 and lens[4] <= 280 \
                    and max(minc, E18 // 10) <= rate <= maxr <= E18 // 2 and 0 <= maxc <= maxr and a[10] == '1'
                unused = cop not in prev['vals'] and all(v['key'] != ckey for v in prev['vals'].values()) \
                    and all(int(x[0]) != cop and int(x[1]) != ckey for x in (prev.get('pend') or []))
                if wellformed and unused:
                    out.append(Viol(hi, b['h'], 'valid-application-refused', f"tx {i} operator {cop} key {ckey} -> {b['txr'][i]}"))
            if b['txr'][i] != 'ok': continue
            for lf in leaves:
                if lf.kind != 'CREATE': continue
                rate, maxr, maxc = int(lf.args[7]), int(lf.args[8]), int(lf.args[9])
                # operator and consensus key unused (judged against the previous block's validators and pending list)
                cop, ckey = int(lf.args[0]), int(lf.args[1])
                # applications removed or admitted by earlier successful transactions of this block no longer count
                freed = set()
                for i2, tx2 in enumerate(ob['txs'][:i]):
                    if i2 < len(b['txr']) and b['txr'][i2] == 'ok':
                        for m2 in tx2['msgs']:
                            for l2 in m2.flat():
                                if l2.kind in ('RMPENDING', 'SETPOWER') and l2.args and l2.args[0].lstrip('-').isdigit():
                                    freed.add(int(l2.args[0]))
                pend_prev = [x for x in (prev.get('pend') or []) if int(x[0]) not in freed]
                # a validator record that still exists after the block (not matured away in it)
                live_vals = {o: v for o, v in prev['vals'].items() if o in b['vals']}
                used_ops = set(live_vals.keys()) | set(int(x[0]) for x in pend_prev)
                used_keys = set(v['key'] for v in live_vals.values()) | set(int(x[1]) for x in pend_prev)
                if prev['vals'] and cop in used_ops:
                    out.append(Viol(hi, b['h'], 'operator-in-use-accepted', f"tx {i} operator {cop}"))
                elif prev['vals'] and ckey >= 0 and ckey in used_keys:
                    out.append(Viol(hi, b['h'], 'consensus-key-in-use-accepted', f"tx {i} key {ckey}"))
                if rate < minc:
                    out.append(Viol(hi, b['h'], 'rate-below-chain-minimum-accepted', f"tx {i} rate {rate} minimum {minc}"))
                elif not (0 <= rate <= maxr <= E18 and 0 <= maxc <= maxr):
                    out.append(Viol(hi, b['h'], 'invalid-commission-accepted', f"tx {i} rate {rate} max {maxr} change {maxc}"))
    return out

def oracle_C16(hi, ops, obs):
    out = []
    for j, b in enumerate(obs):
        if j == 0 or (b['halt'] and not b['txr']): continue
        ob = ops['blocks'][j-1]
        last_ok = None
        for i, tx in enumerate(ob['txs']):
            if i >= len(b['txr']): break
            res = b['txr'][i]
            for m in tx['msgs']:
                for lf in m.flat():
                    if lf.kind != 'PARAMS': continue
                    if res == 'ok':
                        if tx['signer'] != -1:
                            out.append(Viol(hi, b['h'], 'params-by-non-admin', f"tx {i}"))
                        if not params_valid(lf.args):
                            out.append(Viol(hi, b['h'], 'invalid-params-accepted', f"tx {i} {lf.args}"))
                        last_ok = lf.args
                    elif len(tx['msgs']) == 1 and tx['msgs'][0].kind == 'PARAMS' and tx['signer'] == -1 and res != 'sdk:32':
                        if params_valid(lf.args):
                            out.append(Viol(hi, b['h'], 'valid-params-rejected', f"tx {i} {lf.args} -> {res}"))
        if last_ok is not None and not b['halt'] and 'par' in b:
            if [str(int(x)) for x in last_ok] != b['par']:
                out.append(Viol(hi, b['h'], 'params-not-applied', f"sent {last_ok} stored {b['par']}"))
        # "no other effect": a block whose only successful messages are parameter updates (no missed votes, no evidence)
        # mints and burns nothing and moves nothing out of the two pools
        prev = obs[j-1]
        okl = [lf for (_, _, lf) in successful_leaves(ob, b)]
        # x/slashing punishes at the first block *after* the window filled up, whatever that block's own vote says: a
        # validator jailed in this block means the BeginBlocker slashed (false alarm of the thorough tier, envelope 738)
        pv, nv = prev.get('vals') or {}, b.get('vals') or {}
        punished = any(v['jailed'] and not (pv.get(o) or {}).get('jailed', False) for o, v in nv.items())
        if okl and all(lf.kind in ('PARAMS', 'OTHER') for lf in okl) and any(lf.kind == 'PARAMS' for lf in okl) and not punished \
                and not b['halt'] and 'pool' in b and prev.get('pool') and not any(v[2] for v in ob['votes']) and not ob.get('evid'):
            if b['pool'][2] != prev['pool'][2] or b['pool'][0] + b['pool'][1] != prev['pool'][0] + prev['pool'][1]:
                out.append(Viol(hi, b['h'], 'params-moved-funds', f"pools/supply {prev['pool']} -> {b['pool']}"))
        # … and no validator's commission moves in a block unless the validator edited it itself (the commission rates of the
        # records are read straight from x/staking: `VCOM`)
        if okl and any(lf.kind == 'PARAMS' for lf in okl) and 'vcom' in b and prev.get('vcom') and not b['halt']:
            edited = set(sg for (_, sg, lf) in successful_leaves(ob, b) if lf.kind == 'EDIT')
            for op, vc in b['vcom'].items():
                if op in prev['vcom'] and op not in edited and vc != prev['vcom'][op]:
                    out.append(Viol(hi, b['h'], 'params-changed-commission', f"op {op}: {prev['vcom'][op]} -> {vc}"))
                    break
        if out: break
    return out

def oracle_C18(hi, ops, obs):
    out = []
    for b in obs:
        if b['halt'] or 'qry' not in b or b.get('synthetic'): continue
        if b['qry'].get(-1) != 'err':
            out.append(Viol(hi, b['h'], 'malformed-address-answered', str(b['qry'].get(-1))))
        if b.get('qmal') and b['qmal'][0] > 0:
            out.append(Viol(hi, b['h'], 'malformed-address-answered', f"{b['qmal'][0]} malformed arguments answered without error, first: {b['qmal'][1]}"))
        for op in range(10):
            q = b['qry'].get(op); v = b['vals'].get(op)
            if v is None:
                if q != 'err': out.append(Viol(hi, b['h'], 'unknown-validator-answered', f"op {op} -> {q}"))
            else:
                want = v['last'] or 0
                if q == 'err' or int(q) != want:
                    out.append(Viol(hi, b['h'], 'power-query-wrong', f"op {op} query {q} last power {want}"))
                elif (v['status'] != 3 or v['jailed']) and int(q) != 0:
                    out.append(Viol(hi, b['h'], 'inactive-validator-has-power', f"op {op} status {v['status']} jailed {v['jailed']} query {q}"))
                elif b['comet'] is not None and v['status'] == 3 and not v['jailed'] and b['comet'].get(v['key'], 0) != int(q):
                    out.append(Viol(hi, b['h'], 'query-differs-from-cometbft', f"op {op} query {q} comet {b['comet'].get(v['key'], 0)}"))
        if b.get('auth') != '1':
            out.append(Viol(hi, b['h'], 'authority-query', str(b.get('auth'))))
        if 'pqry' in b and 'pend' in b:
            if b['pqry'] != b['pend']:
                out.append(Viol(hi, b['h'], 'pending-query-differs-from-committed-list', f"query {b['pqry']} committed {b['pend']}"))
            elif any(x[1] == '-1' for x in b['pqry']) and not any(x[1] == '-1' for x in b['pend']):
                out.append(Viol(hi, b['h'], 'pending-query-key-unusable', str(b['pqry'])))
        if out: break
    return out

def oracle_C01(hi, ops, obs):
    out = []
    for j, b in enumerate(obs):
        # probes (harness Observe): the gated messages handed to the message router with module accounts and a fresh
        # address as senders, on a discarded branch of the committed state — none of them is the admin
        for (who, res) in (b.get('probe') or []):
            if res != 'poa:3':
                out.append(Viol(hi, b['h'], 'probe-not-refused', f"{who} -> {res} (expected not-an-authority)"))
                break
        if out: break
        if j == 0 or (b['halt'] and not b['txr']): continue
        ob = ops['blocks'][j-1]
        prev = obs[j-1]
        pending_before = set(int(x[0]) for x in (prev.get('pend') or []))
        admitted = set()
        for i, tx in enumerate(ob['txs']):
            if i >= len(b['txr']): break
            res = b['txr'][i]
            if tx['signer'] == -1 and res == 'ok':
                for m in tx['msgs']:
                    for lf in m.flat():
                        if lf.kind == 'SETPOWER' and lf.args and lf.args[0].lstrip('-').isdigit():
                            # a successful SetPower stores its target as Bonded at once — an admitted applicant, and
                            # also a jailed or unbonding validator (`UpdateValidatorSet` sets the status)
                            admitted.add(int(lf.args[0]))
            if tx['signer'] == -1 and res == 'poa:3' and not any(m.kind in ('EXEC', 'GROUPPROP', 'GOVPROP') for m in tx['msgs']):
                # the configured admin (environment override in this harness) is refused as "not an authority": somebody
                # else holds the authority
                out.append(Viol(hi, b['h'], 'configured-admin-rejected', f"tx {i} {tx['msgs']} -> {res}"))
            if tx['signer'] == -1 or res == 'sdk:32': continue
            leaves = [lf for m in tx['msgs'] for lf in m.flat()]
            gated = [lf for lf in leaves if lf.kind in ('SETPOWER', 'RMPENDING', 'PARAMS')]
            if gated and res == 'ok':
                out.append(Viol(hi, b['h'], 'gated-message-from-non-admin-accepted', f"tx {i} signer {tx['signer']} {gated}"))
            if len(leaves) == 1 and gated and res != 'poa:3' and not any(m.kind in ('GROUPPROP', 'GOVPROP') for m in tx['msgs']):
                out.append(Viol(hi, b['h'], 'wrong-error-for-non-admin', f"tx {i} signer {tx['signer']} {gated} -> {res}"))
            for lf in leaves:
                if lf.kind == 'REMOVE' and res == 'ok':
                    t = int(lf.args[0])
                    pv = prev['vals'].get(t) if prev['vals'] else None
                    if tx['signer'] == t and t in admitted:
                        continue   # re-weighted or admitted earlier in this block: PoA stores the record as Bonded at once
                    if tx['signer'] != t or pv is None or pv['status'] != 3:
                        out.append(Viol(hi, b['h'], 'remove-by-stranger-accepted', f"tx {i} signer {tx['signer']} target {t}"))
            if len(leaves) == 1 and leaves[0].kind == 'REMOVE' and tx['signer'] != int(leaves[0].args[0]) and int(leaves[0].args[0]) >= 0 and res != 'poa:3':
                out.append(Viol(hi, b['h'], 'wrong-error-for-non-admin', f"tx {i} remove -> {res}"))
        if out: break
    return out

ORACLES_PRE = None

def _all_leaves(m):
    """leaves at any wrapping depth (exec, group and gov proposals unwrapped)"""
    if m.kind in ('EXEC', 'GROUPPROP', 'GOVPROP'):
        out = []
        for x in m.sub: out += _all_leaves(x)
        return out
    return [m]

def _ante_oracle(hi, ops, obs, pred, code, what):
    out = []
    for j, b in enumerate(obs):
        if j == 0 or (b['halt'] and not b['txr']): continue
        ob = ops['blocks'][j-1]
        for i, tx in enumerate(ob['txs']):
            if i >= len(b['txr']): break
            res = b['txr'][i]
            if res == 'sdk:32': continue
            leaves = [lf for m in tx['msgs'] for lf in _all_leaves(m)]
            hit = any(pred(lf) for lf in leaves)
            if b['h'] > 1 and hit and res != code:
                out.append(Viol(hi, b['h'], what + '-not-rejected', f"tx {i} {tx['msgs']} -> {res}"))
            if not hit and res == code:
                out.append(Viol(hi, b['h'], what + '-false-rejection', f"tx {i} {tx['msgs']} -> {res}"))
    return out

def oracle_C07(hi, ops, obs):
    """full application: a tx with a blocked x/staking message at any depth is rejected with ErrStakingActionNotAllowed above height 1; no other tx is"""
    return _ante_oracle(hi, ops, obs, lambda m: m.kind == 'STAKING' and int(m.args[0]) < 6, 'poa:1', 'staking-msg')

def oracle_C08(hi, ops, obs):
    """full application: a tx with WithdrawDelegatorReward at any depth is rejected with the dedicated error above height 1 (unless the staking rule fired first)"""
    def pred(m): return m.kind == 'WITHDRAW'
    out = []
    for v in _ante_oracle(hi, ops, obs, pred, 'poa:5', 'withdraw-msg'):
        # the staking decorator runs first: poa:1 on a tx that also carries a blocked staking message is fine
        if v.kind.endswith('not-rejected') and '-> poa:1' in v.detail: continue
        out.append(v)
    return out

def oracle_C09(hi, ops, obs):
    """full application (limiter 0.10..0.50): a tx whose CreateValidator / rate-setting EditValidator is out of range never succeeds; a description-only edit never yields a panic"""
    out = []
    lo, hi_ = 10**17, 5 * 10**17
    for j, b in enumerate(obs):
        if j == 0 or (b['halt'] and not b['txr']): continue
        ob = ops['blocks'][j-1]
        for i, tx in enumerate(ob['txs']):
            if i >= len(b['txr']): break
            res = b['txr'][i]
            leaves = [lf for m in tx['msgs'] for lf in _all_leaves(m)]
            rates = [int(lf.args[7]) for lf in leaves if lf.kind == 'CREATE'] + [int(lf.args[1]) for lf in leaves if lf.kind == 'EDIT' and lf.args[1] != 'nil']
            if b['h'] > 1 and any(r < lo or r > hi_ for r in rates) and res == 'ok':
                out.append(Viol(hi, b['h'], 'out-of-range-rate-accepted', f"tx {i} {tx['msgs']}"))
            if any(lf.kind == 'EDIT' and lf.args[1] == 'nil' for lf in leaves) and res == 'undefined:111222':
                out.append(Viol(hi, b['h'], 'edit-without-rate-panics', f"tx {i} {tx['msgs']}"))
    return out

def attach_genesis(ops, obs):
    """the genesis observation (H 0) carries only the update list and CometBFT's set: nothing is committed yet.  The
    state the first block starts from is fully determined by the genesis description; fill it in so that the oracles can
    judge block 1 like every other block."""
    if not obs or obs[0]['h'] != 0 or obs[0]['vals'] or obs[0]['halt']:
        return
    g = ops['genesis']   # maxVals unbondNs window minSigned jailNs slashDownE18 minCommE18 n
    b = obs[0]
    for (op, key, tok) in ops['gvals']:
        b['vals'][op] = dict(op=op, key=key, status=3, jailed=False, tokens=tok, shares=tok * E18, self=tok * E18,
                             last=tok // 1_000_000, ubt=-1, ubh=0)
    tot = sum(tok for (_, _, tok) in ops['gvals'])
    b.setdefault('pool', (tot, 0, tot))
    b.setdefault('pend', [])
    b.setdefault('par', [str(g[1]), str(g[0]), '7', '10000', '0', str(g[6])])
    b.setdefault('updc', [])
    q = {-1: 'err'}
    for op in range(10):
        q[op] = 'err'
    for (op, key, tok) in ops['gvals']:
        q[op] = str(tok // 1_000_000)
    b.setdefault('qry', q)
    b['synthetic'] = True

def _with_genesis(f):
    def g(hi, ops, obs):
        attach_genesis(ops, obs)
        return f(hi, ops, obs)
    g.__doc__ = f.__doc__; g.__name__ = f.__name__
    return g

def oracle_C06(hi, ops, obs):
    """a block in which no message that could touch it succeeded commits the pending list, the x/staking parameters and the
    validators' tokens it started with (transactions and gov-executed proposals alike)"""
    out = []
    for j, b in enumerate(obs):
        if j == 0 or b['halt'] or j - 1 >= len(ops['blocks']):
            continue
        prev = obs[j-1]; ob = ops['blocks'][j-1]
        kinds = set(m.kind for (_, _, m) in successful_leaves(ob, b))
        failed = [i for i, tx in enumerate(ob['txs']) if not tx_ok(b, i)]
        if not failed:
            continue
        if 'pend' in b and 'pend' in prev and not (kinds & {'CREATE', 'SETPOWER', 'RMPENDING'}) and b['pend'] != prev['pend']:
            out.append(Viol(hi, b['h'], 'failed-message-changed-pending', f"no CreateValidator / SetPower / RemovePending succeeded; pending {prev['pend']} -> {b['pend']}"))
        if 'par' in b and 'par' in prev and 'PARAMS' not in kinds and b['par'] != prev['par']:
            out.append(Viol(hi, b['h'], 'failed-message-changed-params', f"no UpdateStakingParams succeeded; {prev['par']} -> {b['par']}"))
        if b['vals'] and prev['vals'] and not (kinds & {'SETPOWER', 'REMOVE', 'UNJAIL'}) and not ob['evid'] and not _jailed_now(prev, b):
            for op, v in b['vals'].items():
                pv = prev['vals'].get(op)
                if pv is None:
                    out.append(Viol(hi, b['h'], 'failed-message-created-validator', f"op {op} appeared although no SetPower succeeded"))
                elif pv['tokens'] != v['tokens'] or pv['shares'] != v['shares']:
                    out.append(Viol(hi, b['h'], 'failed-message-changed-tokens', f"op {op}: tokens {pv['tokens']} -> {v['tokens']} although no SetPower / RemoveValidator succeeded and nobody was slashed"))
        if out: break
    return out

ORACLES = {
    'C06': oracle_C06,
    'C07': oracle_C07, 'C08': oracle_C08, 'C09': oracle_C09,
    'C01': oracle_C01, 'C02': oracle_C02, 'C03': oracle_C03, 'C04': oracle_C04, 'C05': oracle_C05,
    'C10': oracle_C10, 'C11': oracle_C11, 'C13': oracle_C13, 'C14': oracle_C14, 'C15': oracle_C15, 'C16': oracle_C16, 'C18': oracle_C18,
}

ORACLES = {k: _with_genesis(f) for k, f in ORACLES.items()}

def history_trigs(obs, upto_height=None):
    """set of triggers fired (model stream) up to and including a height"""
    t = set()
    for b in obs:
        if upto_height is not None and b['h'] > upto_height: break
        for l in b['trig'].values(): t |= set(l)
    return t


# ---------------------------------------------------------------- reference predicates for the pure streams

def parse_case_msgs(lines):
    """message trees of one pure-stream case (lines after the header)"""
    msgs = []; i = 0
    while i < len(lines):
        m, i = _read_msg(lines, i); msgs.append(m)
    return msgs

def ref_ante(case_lines):
    """expected (staking, withdraw, commission) verdicts of the three decorators for an ANTE case: the property's
    own statement evaluated on the message trees"""
    f = case_lines[0].split()
    h, dogen, floor, ceil = int(f[1]), f[2] == '1', int(f[3]), int(f[4])
    leaves = [lf for m in parse_case_msgs(case_lines[1:]) for lf in _all_leaves(m)]
    st = 'poa:1' if h > 1 and any(lf.kind == 'STAKING' and int(lf.args[0]) < 6 for lf in leaves) else 'pass'
    wd = 'poa:5' if h > 1 and any(lf.kind == 'WITHDRAW' for lf in leaves) else 'pass'
    rates = [int(lf.args[7]) for lf in leaves if lf.kind == 'CREATE'] + [int(lf.args[1]) for lf in leaves if lf.kind == 'EDIT' and lf.args[1] != 'nil']
    gate_closed = (not dogen) and h <= 1
    cm = 'pass' if gate_closed or all(floor <= r <= ceil for r in rates) else 'undefined:1'
    return [st, wd, cm]

def ref_validate(case_line):
    f = case_line.split()
    if f[0] == 'VS':
        t, p = int(f[1]), int(f[2])
        if t < 0: return ['sdk:7']
        if p < PR: return ['poa:2']
        if p >= 2**63: return ['sdk:18']
        return ['pass']
    if f[0] == 'VP':
        return ['ok' if params_valid(f[1:]) else 'err']
    return None
