#!/usr/bin/env python3
"""replay file (history slice with the votes of the run that produced it) -> script for `harness script`:
votes are dropped (the script runner fills them in from the sets of the run it executes), absences kept as ABSENT lines"""
import sys
lines = [l.rstrip('\n') for l in open(sys.argv[1]) if l.strip() and not l.startswith('#')]
if not lines or not lines[0].startswith('GENESIS'):
    sys.exit(3)
out = []; i = 0
while i < len(lines):
    f = lines[i].split()
    if f[0] == 'BLOCK':
        nv = int(f[2]); votes = lines[i + 1:i + 1 + nv]
        ab = [v.split()[1] for v in votes if v.split()[3] == '1']
        if ab:
            out.append('ABSENT ' + ' '.join(ab))
        out.append(f'BLOCK {f[1]} 0 {f[3]}' + (f' {f[4]}' if len(f) > 4 else ''))
        i += 1 + nv
        skipgov = int(f[5]) if len(f) > 5 else 0
        continue
    if f[0] == 'GOV':
        # proposals executed by x/gov: recomputed by the script runner from the run itself
        def skip_msg(j):
            g = lines[j].split(); j += 1
            if g[1] in ('EXEC', 'GROUPPROP', 'GOVPROP', 'GOVSUB'):
                for _ in range(int(g[2])): j = skip_msg(j)
            return j
        j = i + 1
        for _ in range(int(f[1])): j = skip_msg(j)
        i = j
        continue
    out.append(lines[i]); i += 1
if out[-1] != 'END':
    out.append('END')
print('\n'.join(out))
