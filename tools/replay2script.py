#!/usr/bin/env python3
"""replay file (history slice with the votes of the run that produced it) -> script for `harness script`:
votes are dropped (the script runner fills them in from the sets of the run it executes), absences kept as ABSENT lines"""
import sys
lines = [l.rstrip('\n') for l in open(sys.argv[1]) if l.strip() and not l.startswith('#')]
if not lines or not lines[0].startswith('GENESIS'):
    sys.exit(3)
out = []; i = 0
while i < len(lines):
    f = lines[i].split()
    if f[0] == 'BLOCK':
        nv = int(f[2]); votes = lines[i + 1:i + 1 + nv]
        ab = [v.split()[1] for v in votes if v.split()[3] == '1']
        if ab:
            out.append('ABSENT ' + ' '.join(ab))
        out.append(f'BLOCK {f[1]} 0 {f[3]}' + (f' {f[4]}' if len(f) > 4 else ''))
        i += 1 + nv
        continue
    out.append(lines[i]); i += 1
if out[-1] != 'END':
    out.append('END')
print('\n'.join(out))
