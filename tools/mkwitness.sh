#!/bin/sh
# Regenerate the Lean step certificates of the committed witness histories (corpus/*.ops).
set -e
cd /verif
mkdir -p lean/PoaVerif/Witness
for f in corpus/D*.ops corpus/Q*.ops; do
  n=$(basename $f .ops)
  lean/.lake/build/bin/poamodel --lean $n < $f > lean/PoaVerif/Witness/$n.lean
done
