#!/usr/bin/env python3
"""Compare implementation and model observation streams (Tie B).
usage: cmpobs.py impl.txt model.txt [ops.txt] [--proj P1,P2,...] [--max N]
A model 'TXR i ?' line matches any implementation TXR i line.  Prints one record per
diverging history: history index, height, first differing line pair."""
import sys, json

def split_histories(path, keep_trig=False):
    hs, cur = [], []
    for l in open(path):
        l = l.rstrip('\n')
        if l == 'END':
            hs.append(cur); cur = []
        elif l.startswith(('TRIG', 'RESP', 'STORE', 'PRE', 'STEP', 'QUIET', 'WF', 'PROBE', 'VCOM', 'QMAL')) and not keep_trig:
            continue
        else:
            cur.append(l)
    if cur: hs.append(cur)
    return hs

def split_ops(path):
    hs, cur = [], []
    for l in open(path):
        l = l.rstrip('\n')
        if l.startswith('#'): continue
        cur.append(l)
        if l == 'END':
            hs.append(cur); cur = []
    return hs

def line_eq(a, b):
    if a == b: return True
    fa, fb = a.split(), b.split()
    if len(fa) >= 3 and len(fb) >= 3 and fa[0] == 'TXR' and fb[0] == 'TXR' and fa[1] == fb[1] and fb[2] == '?':
        return True
    return False

def compare(impl, model, proj=None):
    """returns list of (hist, height, impl_line, model_line)"""
    out = []
    n = max(len(impl), len(model))
    for i in range(n):
        a = impl[i] if i < len(impl) else []
        b = model[i] if i < len(model) else []
        if proj:
            a = [l for l in a if l.split()[0] in proj]
            b = [l for l in b if l.split()[0] in proj]
        h = '?'
        m = max(len(a), len(b))
        for j in range(m):
            la = a[j] if j < len(a) else '<missing>'
            lb = b[j] if j < len(b) else '<missing>'
            if la.startswith('H '): h = la.split()[1]
            if not line_eq(la, lb):
                out.append((i, h, la, lb))
                break
    return out

if __name__ == '__main__':
    args = [a for a in sys.argv[1:] if not a.startswith('--')]
    proj = None; mx = 10
    for i, a in enumerate(sys.argv):
        if a == '--proj': proj = set(sys.argv[i+1].split(',')) | {'H'}
        if a == '--max': mx = int(sys.argv[i+1])
    args = [a for a in args if a not in (','.join(sorted(proj - {'H'})) if proj else '',)]
    impl, model = split_histories(args[0]), split_histories(args[1])
    diffs = compare(impl, model, proj)
    print(f"histories={len(impl)} diverging={len(diffs)}")
    for (i, h, la, lb) in diffs[:mx]:
        print(f"--- history {i} height {h}\n  impl : {la}\n  model: {lb}")
    sys.exit(1 if diffs else 0)
