#!/bin/sh
# usage: try_mutation.sh <patch-file> <prop> [<prop> ...]   (add -R as first arg to apply the patch reversed)
# Applies a change to /repo, runs the quick checks of the given properties, and restores /repo.
REV=""
if [ "$1" = "-R" ]; then REV="-R"; shift; fi
PATCH=$1; shift
cd /repo || exit 2
if ! git diff --quiet; then echo "/repo is dirty"; exit 2; fi
git apply $REV "$PATCH" || { echo "patch does not apply"; exit 2; }
for p in "$@"; do
  echo "=== $p"
  (cd /verif && ./check $p --tier quick 2>&1 | grep -v "^KNOWN-FINDING" | tail -6)
  echo "exit=$?"
done
git checkout -- . && git clean -fdq -- ante keeper module simapp *.go 2>/dev/null
git status --short | head
# rebuild the harness against the restored tree (the checks rebuild anyway; manual sweeps use the binary directly)
(cd /verif/harness && GOFLAGS= GOPROXY=off GOSUMDB=off GOTOOLCHAIN=local GOWORK=/verif/harness/go.work go build -tags verif -o /verif/.build/harness .)
