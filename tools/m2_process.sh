#!/bin/bash
# usage: m2_process.sh <id> <pkgdir> <prop> [<prop>...]  — confirm a round-2 seeded change in its scratch worktree, then run the checks against it
ID=$1; PKG=$2; shift 2
OUT=/tmp/m2-out/$ID
echo "##### $ID confirm"
/verif/tools/confirm_mutation.sh /tmp/m2-$ID $OUT/patch.diff $OUT/demo_test.go.txt $PKG 'M2|m2' 2>&1 | tail -2
echo "##### $ID checks: $@"
/verif/tools/try_mutation.sh $OUT/patch.diff "$@" 2>&1 | tail -12
