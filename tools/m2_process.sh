#!/bin/bash
# usage: m2_process.sh [-r N] <id> <pkgdir> <prop> [<prop>...]  — confirm a round-N seeded change (default 2) in its scratch worktree, then run the checks against it
R=2
if [ "$1" = "-r" ]; then R=$2; shift 2; fi
ID=$1; PKG=$2; shift 2
OUT=/tmp/m$R-out/$ID
echo "##### $ID confirm"
git -C /tmp/m$R-$ID add -A >/dev/null 2>&1; git -C /tmp/m$R-$ID reset -q >/dev/null 2>&1
/verif/tools/confirm_mutation.sh /tmp/m$R-$ID $OUT/patch.diff $OUT/demo_test.go.txt $PKG "M$R|m$R" 2>&1 | tail -2
echo "##### $ID checks: $@"
/verif/tools/try_mutation.sh $OUT/patch.diff "$@" 2>&1 | tail -12
