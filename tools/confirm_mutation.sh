#!/bin/bash
# usage: confirm_mutation.sh <worktree> <patch> <demo-test-file> <pkgdir> <run-regex>
# Confirms in a scratch worktree: the change compiles, the existing tests pass with it, the demonstration fails with it and passes without it.
WT=$1; PATCH=$2; DEMO=$3; PKG=$4; RUN=$5
export GOPROXY=off GOSUMDB=off GOTOOLCHAIN=local GOFLAGS=
cd $WT || exit 2
git checkout -q -- . ; git clean -fdq -e MUTATION
git apply $PATCH || { echo "RESULT patch-does-not-apply"; exit 1; }
B=$( (go build ./... && cd simapp && go build ./...) 2>&1 | tail -3)
[ -n "$B" ] && { echo "RESULT build-failed: $B"; exit 1; }
T1=$(go test -vet=off -count=1 . ./ante/... ./keeper/... ./module/... 2>&1 | grep -c "^FAIL")
T2=$(cd simapp && go test -vet=off -count=1 ./... 2>&1 | grep -c "^FAIL")
cp $DEMO $PKG/zz_mutation_demo_test.go
D1=$(go test -vet=off -count=1 ./$PKG/ -run "$RUN" 2>&1 | tail -1)
git apply -R $PATCH
D2=$(go test -vet=off -count=1 ./$PKG/ -run "$RUN" 2>&1 | tail -1)
rm -f $PKG/zz_mutation_demo_test.go
echo "RESULT existing-test-failures root=$T1 simapp=$T2 | demo-with-change: $D1 | demo-without: $D2"
