#!/usr/bin/env python3
"""Validate the proved-safe region: (a) model: PRE=1 at a block => STEP=1 (what Lemmas/Refine.lean proves);
(b) no trigger (other than D8, D9a, D9b) fired so far => PRE=1 (the envelope lies inside the region)."""
import sys
sys.path.insert(0, __import__('os').path.dirname(__import__('os').path.abspath(__file__)))
import poalib
model = poalib.parse_obs(sys.argv[1])
a=b=n=npre=nfree=0
ex=[]
for hi,m in enumerate(model):
    trig=set(); capseen=False
    for blk in m:
        if blk.get('vals') and 'par' in blk and poalib.cap_binding(blk): capseen=True
        for l in blk['trig'].values(): trig|=set(l)
        if 'pre' not in blk: continue
        n+=1
        if blk['pre']:
            npre+=1
            if not blk.get('step',False): a+=1; ex.append(('PRE-but-not-STEP',hi,blk['h']))
        free = not (trig - {'D8','D9a','D9b'}) and not capseen

        if free:
            nfree+=1
            if not blk['pre']: b+=1; ex.append(('triggerfree-but-not-PRE',hi,blk['h']))
print(f"blocks={n} pre={npre} triggerfree={nfree} PRE-but-not-STEP={a} triggerfree-but-not-PRE={b}")
for e in ex[:10]: print(' ',e)
