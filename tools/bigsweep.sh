#!/bin/bash
# Unchanged-tree sweep: correspondence and completeness of the trigger table over many seeds.
# usage: bigsweep.sh <first-seed> <last-seed> [n] [blocks]   (run from a /verif checkout after ./check setup)
V=$(cd $(dirname $0)/.. && pwd)
export GOFLAGS= GOPROXY=off GOSUMDB=off GOTOOLCHAIN=local GOWORK=$V/harness/go.work
N=${3:-400}; B=${4:-35}
T=$(mktemp -d /var/tmp/poasweep.XXXX)
for seed in $(seq $1 $2); do
  for mode in calm envelope wild guard gov; do
    $V/.build/harness chain -seed $seed -n $N -blocks $B -mode $mode -restarts -ops $T/o.txt -obs $T/b.txt >/dev/null 2>&1
    $V/lean/.lake/build/bin/poamodel < $T/o.txt > $T/m.txt
    d=$(python3 $V/tools/cmpobs.py $T/b.txt $T/m.txt | head -1)
    echo "seed=$seed mode=$mode $d"
    python3 $V/tools/cmpobs.py $T/b.txt $T/m.txt | sed -n 2,8p
    python3 $V/tools/sweep.py $T/o.txt $T/b.txt $T/m.txt 2>&1 | cut -c1-300 | awk '$0 ~ /\(\), / || $0 ~ /IMPL-ONLY/ '
  done
done
rm -rf $T
