module poaverif/extract

go 1.21
